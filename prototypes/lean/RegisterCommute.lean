import Mathlib.Data.Matrix.Basic
import Mathlib.Data.Matrix.Mul
import Mathlib.Data.Complex.Basic
import Mathlib.Data.Fintype.Pi
import Mathlib.Algebra.BigOperators.Fin
import Mathlib.Tactic

open Matrix Function

variable {n : ℕ}

abbrev Ket (n : ℕ) := Fin n → Bool
abbrev Reg (n : ℕ) := Matrix (Ket n) (Ket n) ℂ
abbrev Op1 := Matrix Bool Bool ℂ

/-- agree everywhere except possibly at `q` -/
def agreeOff (q : Fin n) (r c : Ket n) : Prop := ∀ j, j ≠ q → r j = c j
instance (q : Fin n) (r c : Ket n) : Decidable (agreeOff q r c) := by unfold agreeOff; infer_instance

/-- a one-qubit operator placed on qubit `q` -/
def embed1 (q : Fin n) (U : Op1) : Reg n :=
  fun r c => if agreeOff q r c then U (r q) (c q) else 0

lemma agreeOff_iff_update (q : Fin n) (r c : Ket n) : agreeOff q r c ↔ c = update r q (c q) := by
  constructor
  · intro h; funext j
    by_cases hj : j = q
    · subst hj; simp
    · rw [update_of_ne hj]; exact (h j hj).symm
  · intro h j hj; rw [h, update_of_ne hj]

/-- a sum over kets that vanishes unless the ket is `update r q b` collapses to a sum over `b`. -/
lemma sum_agreeOff (q : Fin n) (r : Ket n) (f : Ket n → ℂ)
    (hf : ∀ k, ¬ agreeOff q r k → f k = 0) :
    ∑ k, f k = ∑ b : Bool, f (update r q b) := by
  have hinj : Function.Injective (fun b : Bool => update r q b) := by
    intro b b' h; have := congrFun h q; simpa using this
  rw [← Finset.sum_image (s := Finset.univ) (g := fun b : Bool => update r q b) (f := f)
        (fun a _ b _ h => hinj h)]
  symm
  apply Finset.sum_subset (Finset.subset_univ _)
  intro k _ hk
  apply hf
  intro hag
  apply hk
  rw [Finset.mem_image]
  exact ⟨k q, Finset.mem_univ _, ((agreeOff_iff_update q r k).mp hag).symm⟩

theorem embed1_mul (q : Fin n) (U V : Op1) : embed1 q U * embed1 q V = embed1 q (U * V) := by
  ext r c
  rw [Matrix.mul_apply, sum_agreeOff q r]
  · simp only [embed1, Matrix.mul_apply, Fintype.sum_bool]
    by_cases h : agreeOff q r c
    · have h1 : ∀ b, agreeOff q r (update r q b) := fun b j hj => by rw [update_of_ne hj]
      have h2 : ∀ b, agreeOff q (update r q b) c := fun b j hj => by rw [update_of_ne hj]; exact h j hj
      simp [h, h1, h2]
    · have h2 : ∀ b, ¬ agreeOff q (update r q b) c := fun b hb => h (fun j hj => by
        have := hb j hj; rwa [update_of_ne hj] at this)
      simp [h, h2]
  · intro k hk; simp [embed1, hk]

/-- `M` acts as the identity on qubit `q`. -/
def NotTouching (q : Fin n) (M : Reg n) : Prop :=
  ∀ r c b b', M (update r q b) (update c q b') = if b = b' then M (update r q false) (update c q false) else 0

theorem embed1_commute (q : Fin n) (U : Op1) (M : Reg n) (hM : NotTouching q M) :
    embed1 q U * M = M * embed1 q U := by
  ext r c
  have key : ∀ (x y : Ket n) (b b' : Bool), M (update x q b) (update y q b') =
      if b = b' then M (update x q false) (update y q false) else 0 := hM
  rw [Matrix.mul_apply, Matrix.mul_apply, sum_agreeOff q r, Fintype.sum_bool]
  · -- right-hand side: collapse on the column index
    have hr : ∑ k, M r k * embed1 q U k c = ∑ b : Bool, M r (update c q b) * embed1 q U (update c q b) c := by
      apply sum_agreeOff q c
      intro k hk
      have : ¬ agreeOff q k c := fun h => hk (fun j hj => (h j hj).symm)
      simp [embed1, this]
    rw [hr, Fintype.sum_bool]
    have h1 : ∀ b, agreeOff q r (update r q b) := fun b j hj => by rw [update_of_ne hj]
    have h3 : ∀ b, agreeOff q (update c q b) c := fun b j hj => by rw [update_of_ne hj]
    have er : r = update r q (r q) := by simp
    have ec : c = update c q (c q) := by simp
    simp only [embed1, h1, h3, if_true, update_self]
    have e1 : ∀ b, M (update r q b) c = if b = c q then M (update r q false) (update c q false) else 0 := by
      intro b; conv_lhs => rw [ec]
      exact key r c b (c q)
    have e2 : ∀ b, M r (update c q b) = if r q = b then M (update r q false) (update c q false) else 0 := by
      intro b; conv_lhs => rw [er]
      exact key r c (r q) b
    rw [e1, e1, e2, e2]
    cases hrq : r q <;> cases hcq : c q <;> simp <;> ring
  · intro k hk; simp [embed1, hk]

#print axioms embed1_mul
#print axioms embed1_commute
