import Mathlib.Analysis.SpecialFunctions.Trigonometric.Inverse
import Mathlib.Analysis.SpecialFunctions.Complex.Arg
import Mathlib.Tactic

open Real

noncomputable def atan2 (y x : ℝ) : ℝ := Complex.arg ⟨x, y⟩
noncomputable def copysign (x y : ℝ) : ℝ := if y < 0 then -|x| else |x|

lemma norm_mk (x y : ℝ) : ‖(⟨x, y⟩ : ℂ)‖ = √(x^2 + y^2) := by
  rw [Complex.norm_def, Complex.normSq_mk]; congr 1; ring

lemma cos_atan2 {x y : ℝ} (h : x ≠ 0) : cos (atan2 y x) = x / √(x^2+y^2) := by
  unfold atan2
  have hz : (⟨x, y⟩ : ℂ) ≠ 0 := by
    intro h0; have := congrArg Complex.re h0; simp at this; contradiction
  rw [Complex.cos_arg hz, norm_mk]

lemma sin_atan2 (x y : ℝ) : sin (atan2 y x) = y / √(x^2+y^2) := by
  unfold atan2
  rw [Complex.sin_arg, norm_mk]

theorem aba_general (a b c α : ℝ) (hn : a^2 + b^2 + c^2 = 1)
    (hα : -π < α) (hα' : α < π) (hbc : b^2 + c^2 ≠ 0) (hα0 : α ≠ 0) :
    let p := 2 * atan2 (a * sin (α/2)) (cos (α/2))
    let r := cos (α/2) * √(1 + (a * tan (α/2))^2)
    let θ2 := copysign (2 * arccos r) α
    let m := copysign (2 * arccos (b * sin (α/2) / sin (θ2/2))) c
    cos (θ2/2) * cos (p/2) = cos (α/2) ∧
    cos (θ2/2) * sin (p/2) = a * sin (α/2) ∧
    sin (θ2/2) * cos (m/2) = b * sin (α/2) ∧
    sin (θ2/2) * sin (m/2) = c * sin (α/2) := by
  intro p r θ2 m
  set s := sin (α/2) with hs
  set k := cos (α/2) with hk
  have hkpos : 0 < k := cos_pos_of_mem_Ioo ⟨by linarith, by linarith⟩
  have hsk : s^2 + k^2 = 1 := sin_sq_add_cos_sq (α/2)
  set R := √(k^2 + (a*s)^2) with hR
  have hRpos : 0 < R := by
    apply Real.sqrt_pos.mpr; positivity
  have hRsq : R^2 = k^2 + (a*s)^2 := Real.sq_sqrt (by positivity)
  -- r = R
  have hr : r = R := by
    show k * √(1 + (a * tan (α/2))^2) = R
    rw [tan_eq_sin_div_cos, ← hs, ← hk]
    have : (1 + (a * (s / k))^2) = (k^2 + (a*s)^2) / k^2 := by field_simp
    rw [this, Real.sqrt_div (by positivity), Real.sqrt_sq hkpos.le, hR]
    field_simp
  have ha2 : a^2 ≤ 1 := by nlinarith [sq_nonneg b, sq_nonneg c]
  have hRle : R ≤ 1 := by
    have : R^2 ≤ 1 := by rw [hRsq]; nlinarith [sq_nonneg s, sq_nonneg (a*s)]
    nlinarith
  set ρ := √(b^2 + c^2) with hρ
  have hρpos : 0 < ρ := Real.sqrt_pos.mpr (lt_of_le_of_ne (by positivity) (Ne.symm hbc))
  have hρsq : ρ^2 = b^2 + c^2 := Real.sq_sqrt (by positivity)
  have hac0 : 0 ≤ arccos R := arccos_nonneg R
  -- sign of s = sign of α
  have hs_sign : (0 < α → 0 < s) ∧ (α < 0 → s < 0) := by
    constructor
    · intro h; exact sin_pos_of_pos_of_lt_pi (by linarith) (by linarith)
    · intro h; exact sin_neg_of_neg_of_neg_pi_lt (by linarith) (by linarith)
  have hs0 : s ≠ 0 := by
    rcases lt_or_gt_of_ne hα0 with h | h
    · exact (hs_sign.2 h).ne
    · exact (hs_sign.1 h).ne'
  have h1R : √(1 - R^2) = |s| * ρ := by
    have : 1 - R^2 = (|s| * ρ)^2 := by
      rw [mul_pow, sq_abs, hρsq, hRsq]; nlinarith
    rw [this, Real.sqrt_sq (by positivity)]
  -- half of θ2
  have hθ2 : θ2 / 2 = if α < 0 then -arccos R else arccos R := by
    show copysign (2 * arccos r) α / 2 = _
    unfold copysign; rw [hr, abs_of_nonneg (by positivity)]
    split_ifs <;> ring
  have hcosθ2 : cos (θ2/2) = R := by
    rw [hθ2]; split_ifs
    · rw [cos_neg, cos_arccos (by linarith) hRle]
    · rw [cos_arccos (by linarith) hRle]
  have hsinθ2 : sin (θ2/2) = s * ρ := by
    rw [hθ2]; split_ifs with h
    · rw [sin_neg, sin_arccos, h1R, abs_of_neg (hs_sign.2 h)]; ring
    · have : 0 < α := lt_of_le_of_ne (not_lt.mp h) (Ne.symm hα0)
      rw [sin_arccos, h1R, abs_of_pos (hs_sign.1 this)]
  have hcosp : cos (p/2) = k / R := by
    show cos (2 * atan2 (a * s) k / 2) = _
    rw [mul_div_cancel_left₀ _ (two_ne_zero), cos_atan2 hkpos.ne']
  have hsinp : sin (p/2) = a * s / R := by
    show sin (2 * atan2 (a * s) k / 2) = _
    rw [mul_div_cancel_left₀ _ (two_ne_zero), sin_atan2]
  have hbρ : b * s / sin (θ2/2) = b / ρ := by
    rw [hsinθ2]; field_simp
  have hbρ1 : -1 ≤ b/ρ ∧ b/ρ ≤ 1 := by
    have : (b/ρ)^2 ≤ 1 := by
      rw [div_pow, hρsq, div_le_one (by positivity)]; nlinarith [sq_nonneg c]
    constructor <;> nlinarith
  have hm : m / 2 = if c < 0 then -arccos (b/ρ) else arccos (b/ρ) := by
    show copysign (2 * arccos (b * s / sin (θ2/2))) c / 2 = _
    unfold copysign; rw [hbρ, abs_of_nonneg (by have := arccos_nonneg (b/ρ); positivity)]
    split_ifs <;> ring
  have h1b : √(1 - (b/ρ)^2) = |c| / ρ := by
    have : 1 - (b/ρ)^2 = (|c|/ρ)^2 := by
      rw [div_pow, div_pow, sq_abs, hρsq]
      have hne : b^2 + c^2 ≠ 0 := hbc
      field_simp
      ring
    rw [this, Real.sqrt_sq (by positivity)]
  have hcosm : cos (m/2) = b/ρ := by
    rw [hm]; split_ifs
    · rw [cos_neg, cos_arccos hbρ1.1 hbρ1.2]
    · rw [cos_arccos hbρ1.1 hbρ1.2]
  have hsinm : sin (m/2) = c/ρ := by
    rw [hm]; split_ifs with h
    · rw [sin_neg, sin_arccos, h1b, abs_of_neg h]; ring
    · rw [sin_arccos, h1b, abs_of_nonneg (not_lt.mp h)]
  refine ⟨?_, ?_, ?_, ?_⟩
  · rw [hcosθ2, hcosp]; field_simp
  · rw [hcosθ2, hsinp]; field_simp
  · rw [hsinθ2, hcosm]; field_simp
  · rw [hsinθ2, hsinm]; field_simp
#print axioms aba_general
