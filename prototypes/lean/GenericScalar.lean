/-- Transcendental/rounding operations the numeric kernels need beyond field arithmetic. -/
class Trig (α : Type) where
  pi : α
  sin : α → α
  cos : α → α
  acos : α → α
  sqrt : α → α
  atan2 : α → α → α
  floor : α → α
  abs : α → α

instance : NatCast Float := ⟨Float.ofNat⟩
instance : Trig Float where
  pi := 3.141592653589793
  sin := Float.sin
  cos := Float.cos
  acos := Float.acos
  sqrt := Float.sqrt
  atan2 := Float.atan2
  floor := Float.floor
  abs := Float.abs

namespace Model
variable {α : Type} [Add α] [Sub α] [Mul α] [Div α] [Neg α] [LT α] [LE α]
  [DecidableLT α] [DecidableLE α] [NatCast α] [Trig α]

def normalizeAngle (atol x : α) : α :=
  let twoPi : α := (2 : Nat) * Trig.pi
  let t := x - twoPi * (Trig.floor (x / twoPi) + (1 : Nat))
  if t < -Trig.pi + atol then t + twoPi
  else if Trig.pi < t then t - twoPi
  else t
end Model

#eval Model.normalizeAngle (α := Float) 1e-7 9.42477796076938
#eval Model.normalizeAngle (α := Float) 1e-7 (-3.141592603589793)
