import Mathlib.Algebra.Group.Commute.Defs
import Mathlib.Algebra.Group.Hom.Defs
import Mathlib.Algebra.BigOperators.Group.List.Basic
import Mathlib.Logic.Function.Basic
import Mathlib.Tactic

/-! Design-phase prototype: the merge pass over an abstract semantics.
    `Op` : single-qubit operators (already modulo global phase), `M` : register operators,
    `emb q` places an operator on qubit `q`, barriers `B` are everything that is not a plain rotation. -/
open Function

variable {Op M B : Type} [Monoid Op] [Monoid M]

structure Sem (Op M B : Type) [Monoid Op] [Monoid M] where
  emb : ℕ → Op →* M
  den : B → M
  touches : B → List ℕ
  comm_emb : ∀ q q' a b, q ≠ q' → Commute (emb q a) (emb q' b)
  comm_den : ∀ q a b, q ∉ touches b → Commute (emb q a) (den b)

inductive St (Op B : Type) | rot (q : ℕ) (u : Op) | bar (b : B)

variable (S : Sem Op M B)

/-- denotation of a statement list kept most-recent-first -/
def denR : List (St Op B) → M
  | [] => 1
  | .rot q u :: l => S.emb q u * denR l
  | .bar b :: l => S.den b * denR l

def accProd (n : ℕ) (acc : ℕ → Op) : M := ((List.range n).map fun q => S.emb q (acc q)).prod

lemma accProd_succ (n : ℕ) (acc : ℕ → Op) : accProd S (n+1) acc = accProd S n acc * S.emb n (acc n) := by
  simp [accProd, List.range_succ]

lemma accProd_congr (n : ℕ) (acc acc' : ℕ → Op) (h : ∀ q < n, acc q = acc' q) :
    accProd S n acc = accProd S n acc' := by
  unfold accProd; congr 1; apply List.map_congr_left; intro q hq; rw [h q (List.mem_range.mp hq)]

lemma commute_accProd (n : ℕ) (acc : ℕ → Op) (x : M)
    (h : ∀ q < n, Commute x (S.emb q (acc q))) : Commute x (accProd S n acc) := by
  unfold accProd
  apply Commute.list_prod_right
  intro y hy
  obtain ⟨q, hq, rfl⟩ := List.mem_map.mp hy
  exact h q (List.mem_range.mp hq)

lemma emb_commute_accProd_update (n q : ℕ) (acc : ℕ → Op) (a : Op) :
    Commute (S.emb q a) (accProd S n (update acc q 1)) := by
  apply commute_accProd
  intro q' _
  by_cases h : q' = q
  · subst h; simp [Commute.one_right]
  · rw [update_of_ne h]; exact S.comm_emb q q' _ _ (Ne.symm h)

/-- pull the factor of qubit `q` to the front -/
lemma accProd_pull (n q : ℕ) (hq : q < n) (acc : ℕ → Op) :
    accProd S n acc = S.emb q (acc q) * accProd S n (update acc q 1) := by
  induction n with
  | zero => omega
  | succ n ih =>
    rw [accProd_succ, accProd_succ]
    by_cases h : q = n
    · subst h
      have e : accProd S q (update acc q 1) = accProd S q acc :=
        accProd_congr S q _ _ (fun q' hq' => by rw [update_of_ne (by omega)])
      rw [e, update_self, map_one, mul_one]
      have hc : Commute (S.emb q (acc q)) (accProd S q acc) :=
        commute_accProd S q acc _ (fun q' hq' => S.comm_emb q q' _ _ (by omega))
      exact hc.eq.symm
    · have hq' : q < n := by omega
      rw [ih hq', update_of_ne (Ne.symm h), mul_assoc]

/-- flushing one qubit -/
def flush1 (isId : Op → Bool) (st : (ℕ → Op) × List (St Op B)) (q : ℕ) : (ℕ → Op) × List (St Op B) :=
  if isId (st.1 q) then st else (update st.1 q 1, .rot q (st.1 q) :: st.2)

def flush (isId : Op → Bool) (qs : List ℕ) (st : (ℕ → Op) × List (St Op B)) := qs.foldl (flush1 isId) st

def step (isId : Op → Bool) (st : (ℕ → Op) × List (St Op B)) : St Op B → (ℕ → Op) × List (St Op B)
  | .rot q u => (update st.1 q (u * st.1 q), st.2)
  | .bar b => let st' := flush isId (S.touches b) st; (st'.1, .bar b :: st'.2)

/-- the merge pass: returns the output most-recent-first -/
def mergeR (isId : Op → Bool) (n : ℕ) (prog : List (St Op B)) : List (St Op B) :=
  (flush isId (List.range n) (prog.foldl (step S isId) (fun _ => 1, []))).2

def inv (n : ℕ) (st : (ℕ → Op) × List (St Op B)) : M := accProd S n st.1 * denR S st.2

variable {isId : Op → Bool} (hId : ∀ a, isId a = true → a = 1)
include hId

lemma flush1_inv (n q : ℕ) (hq : q < n) (st) :
    inv S n (flush1 isId st q) = inv S n st ∧ (flush1 isId st q).1 q = 1 ∧
    (∀ q', st.1 q' = 1 → (flush1 isId st q).1 q' = 1) := by
  unfold flush1
  split
  · rename_i h; exact ⟨rfl, hId _ h, fun _ h => h⟩
  · refine ⟨?_, by simp, ?_⟩
    · simp only [inv, denR]
      rw [accProd_pull S n q hq st.1, ← mul_assoc, (emb_commute_accProd_update S n q st.1 _).eq.symm]
    · intro q' h; by_cases e : q' = q
      · subst e; simp
      · simp [update_of_ne e, h]

lemma flush_inv (n : ℕ) (qs : List ℕ) (hqs : ∀ q ∈ qs, q < n) (st) :
    inv S n (flush isId qs st) = inv S n st ∧ (∀ q ∈ qs, (flush isId qs st).1 q = 1) ∧
    (∀ q', st.1 q' = 1 → (flush isId qs st).1 q' = 1) := by
  induction qs generalizing st with
  | nil => simp [flush]
  | cons q qs ih =>
    have h1 := flush1_inv S hId n q (hqs q (by simp)) st
    have h2 := ih (fun q' hq' => hqs q' (by simp [hq'])) (flush1 isId st q)
    simp only [flush, List.foldl_cons] at h2 ⊢
    refine ⟨h2.1.trans h1.1, ?_, fun q' h => h2.2.2 q' (h1.2.2 q' h)⟩
    intro q' hq'
    rcases List.mem_cons.mp hq' with rfl | hq'
    · exact h2.2.2 _ h1.2.1
    · exact h2.2.1 q' hq'

def wfSt (n : ℕ) : St Op B → Prop
  | .rot q _ => q < n
  | .bar b => ∀ q ∈ S.touches b, q < n

lemma step_inv (n : ℕ) (s : St Op B) (hs : wfSt S n s) (st) :
    inv S n (step S isId st s) = denR S [s] * inv S n st := by
  cases s with
  | rot q u =>
    simp only [step, inv, denR, mul_one]
    rw [accProd_pull S n q hs (update st.1 q (u * st.1 q)), update_self, update_idem,
        accProd_pull S n q hs st.1, map_mul]
    simp only [mul_assoc]
  | bar b =>
    obtain ⟨h1, h2, _⟩ := flush_inv S hId n (S.touches b) hs st
    simp only [step, inv, denR, mul_one] at h1 ⊢
    have hc : Commute (S.den b) (accProd S n (flush isId (S.touches b) st).1) := by
      apply commute_accProd
      intro q _
      by_cases hq : q ∈ S.touches b
      · rw [h2 q hq, map_one]; exact Commute.one_right _
      · exact (S.comm_den q _ b hq).symm
    rw [← mul_assoc, hc.eq.symm, mul_assoc, h1]

theorem merge_correct (n : ℕ) (prog : List (St Op B)) (hwf : ∀ s ∈ prog, wfSt S n s) :
    denR S (mergeR S isId n prog) = denR S prog.reverse := by
  have hfold : ∀ (l : List (St Op B)) (st), (∀ s ∈ l, wfSt S n s) →
      inv S n (l.foldl (step S isId) st) = denR S l.reverse * inv S n st := by
    intro l
    induction l with
    | nil => intro st _; simp [denR]
    | cons s l ih =>
      intro st h
      rw [List.foldl_cons, ih _ (fun x hx => h x (by simp [hx])), step_inv S hId n s (h s (by simp))]
      have : ∀ (l₁ l₂ : List (St Op B)), denR S (l₁ ++ l₂) = denR S l₁ * denR S l₂ := by
        intro l₁ l₂; induction l₁ with
        | nil => simp [denR]
        | cons x l₁ ih => cases x <;> simp [denR, ih, mul_assoc]
      rw [List.reverse_cons, this, mul_assoc]
  obtain ⟨h1, h2, _⟩ := flush_inv S hId n (List.range n) (fun q hq => List.mem_range.mp hq)
    (prog.foldl (step S isId) (fun _ => 1, []))
  have hone : accProd S n (flush isId (List.range n) (prog.foldl (step S isId) (fun _ => 1, []))).1 = 1 := by
    unfold accProd
    apply List.prod_eq_one
    intro x hx
    obtain ⟨q, hq, rfl⟩ := List.mem_map.mp hx
    rw [h2 q hq, map_one]
  have := hfold prog (fun _ => 1, []) hwf
  rw [← h1] at this
  simp only [inv, hone, one_mul] at this
  rw [mergeR, this]
  have : accProd S n (fun _ => (1 : Op)) = 1 := by
    unfold accProd; apply List.prod_eq_one; intro x hx
    obtain ⟨q, _, rfl⟩ := List.mem_map.mp hx; simp
  simp [this, denR]

#print axioms merge_correct
