/-! Design-phase prototype: the index-walking `while` loop of `general_decomposer.decompose`
    (splice in place, advance past the replacement) equals `flatMap`, with termination. Core Lean only. -/
namespace Model
variable {S : Type}

/-- `d s = none` : statement is not a gate (skipped); `some (some r)` : replacement accepted;
    `some none` : the proposal was rejected (the real code raises here). -/
def loop (d : S → Option (Option (List S))) (stmts : List S) (idx : Nat) : List S × Bool :=
  if h : idx < stmts.length then
    match d stmts[idx] with
    | none => loop d stmts (idx + 1)
    | some none => (stmts, false)
    | some (some rep) => loop d (stmts.take idx ++ rep ++ stmts.drop (idx + 1)) (idx + rep.length)
  else (stmts, true)
termination_by stmts.length - idx
decreasing_by
  · omega
  · simp only [List.length_append, List.length_take, List.length_drop]; omega

def spec (d : S → Option (Option (List S))) (stmts : List S) : List S :=
  stmts.flatMap fun s => match d s with
    | some (some rep) => rep
    | _ => [s]

def allAccepted (d : S → Option (Option (List S))) (stmts : List S) : Prop :=
  ∀ s ∈ stmts, d s ≠ some none

theorem loop_eq (d : S → Option (Option (List S))) (pre post : List S) (h : allAccepted d post) :
    loop d (pre ++ post) pre.length = (pre ++ spec d post, true) := by
  induction post generalizing pre with
  | nil =>
    unfold loop; simp [spec]
  | cons s post ih =>
    have hs : d s ≠ some none := h s (by simp)
    have hpost : allAccepted d post := fun x hx => h x (by simp [hx])
    unfold loop
    have hlt : pre.length < (pre ++ s :: post).length := by simp
    simp only [hlt, dite_true]
    have hget : (pre ++ s :: post)[pre.length] = s := by simp
    rw [hget]
    match hd : d s with
    | none =>
      simp only
      have := ih (pre ++ [s]) hpost
      simp only [List.length_append, List.length_singleton, List.append_assoc, List.singleton_append] at this
      rw [this]; simp [spec, hd]
    | some none => exact absurd hd hs
    | some (some rep) =>
      simp only
      have e1 : (pre ++ s :: post).take pre.length = pre := by simp
      have e2 : (pre ++ s :: post).drop (pre.length + 1) = post := by simp
      rw [e1, e2]
      have := ih (pre ++ rep) hpost
      simp only [List.length_append, List.append_assoc] at this
      rw [List.append_assoc, this]; simp [spec, hd]

theorem loop_flatMap (d : S → Option (Option (List S))) (stmts : List S) (h : allAccepted d stmts) :
    loop d stmts 0 = (spec d stmts, true) := by
  simpa using loop_eq d [] stmts h
end Model
#print axioms Model.loop_flatMap
