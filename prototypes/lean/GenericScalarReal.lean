import GenericScalar
import Mathlib.Analysis.SpecialFunctions.Trigonometric.Inverse
import Mathlib.Analysis.SpecialFunctions.Complex.Arg
import Mathlib.Tactic

noncomputable instance : Trig ℝ where
  pi := Real.pi
  sin := Real.sin
  cos := Real.cos
  acos := Real.arccos
  sqrt := Real.sqrt
  atan2 y x := Complex.arg ⟨x, y⟩
  floor x := (⌊x⌋ : ℝ)
  abs x := |x|

open Real

theorem normalizeAngle_range (atol x : ℝ) (h0 : 0 ≤ atol) (h1 : atol < π) :
    let r := Model.normalizeAngle atol x
    (-π + atol ≤ r) ∧ r < π + atol ∧ ∃ k : ℤ, r = x + 2 * π * k := by
  intro r
  have hpi := Real.pi_pos
  have h2pi : (0:ℝ) < 2 * π := by linarith
  set f : ℝ := (⌊x / (2*π)⌋ : ℝ) with hf
  have hfl : f * (2*π) ≤ x := by
    have := Int.floor_le (x / (2*π)); rwa [le_div_iff₀ h2pi] at this
  have hfl2 : x < (f + 1) * (2*π) := by
    have := Int.lt_floor_add_one (x / (2*π)); rwa [div_lt_iff₀ h2pi] at this
  set t := x - 2 * π * (f + 1) with ht
  have ht1 : -(2*π) ≤ t := by rw [ht]; linarith
  have ht2 : t < 0 := by rw [ht]; linarith
  have hr : r = if t < -π + atol then t + 2*π else if π < t then t - 2*π else t := by
    simp only [r, Model.normalizeAngle, Trig.pi, Trig.floor, Nat.cast_ofNat, Nat.cast_one, t, f]
  rw [hr]
  split_ifs with h1 h2
  · refine ⟨by linarith, by linarith, -⌊x / (2*π)⌋, ?_⟩
    rw [ht, hf]; push_cast; ring
  · exact absurd h2 (by linarith)
  · refine ⟨by linarith, by linarith, -⌊x / (2*π)⌋ - 1, ?_⟩
    rw [ht, hf]; push_cast; ring
#print axioms normalizeAngle_range
