def lcg (s : UInt64) : UInt64 := s * 6364136223846793005 + 1442695040888963407
def toUnit (s : UInt64) : Float := (s >>> 11).toFloat / 9007199254740992.0
partial def loop (h : IO.FS.Stream) : IO Unit := do
  let line ← h.getLine
  if line.isEmpty then return ()
  match line.trimAscii.toString.toNat? with
  | some bits =>
    let x := Float.ofBits bits.toUInt64
    let y := Float.ofBits (lcg bits.toUInt64)
    IO.println s!"{(Float.sin x).toBits} {(Float.cos x).toBits} {(Float.tan x).toBits} {(Float.acos x).toBits} {(Float.atan2 x y).toBits} {(Float.sqrt x).toBits} {(Float.floor x).toBits} {(Float.log10 x).toBits} {(Float.exp x).toBits}"
  | none => IO.println "bad"
  loop h
def main : IO Unit := do loop (← IO.getStdin)
