import math, random, itertools
import numpy as np
from opensquirrel import CircuitBuilder, Circuit
from opensquirrel.ir import *
from opensquirrel.decomposer import *
from opensquirrel.decomposer.general_decomposer import check_gate_replacement
from opensquirrel.default_gates import *
from opensquirrel.mapper import HardcodedMapper
from opensquirrel.mapper.mapping import Mapping
from opensquirrel.circuit_matrix_calculator import get_circuit_matrix
from opensquirrel.common import are_matrices_equivalent_up_to_global_phase, normalize_angle, ATOL
def t(name, f):
    try:
        r = f(); print(name, "->", repr(r)[:500])
    except Exception as e:
        print(name, "RAISED", type(e).__name__, str(e)[:300])
# (a) shared object map
def a():
    c = CircuitBuilder(3).H(0).to_circuit()
    g = X(1)
    c.replace(H, lambda q: [Y90(q), X(q)])
    c.ir.statements = [g, g, Rz(0, Float(1.0))]
    c.map(HardcodedMapper(3, Mapping([1,2,0])))
    return c.ir.statements
t("shared", a)
# (b) CH with CNOT decomposer
for ph in [math.pi/2, 0.0, 0.3]:
    g = ControlledGate(0, BlochSphereRotation(1, (1,0,1), math.pi, ph))
    try:
        r = CNOTDecomposer().decompose(g); check_gate_replacement(g, r); print("CH ok", ph, r)
    except Exception as e: print("CH fail", ph, e, )
for (ax, an) in [((1,0,0), math.pi), ((0,1,0), math.pi), ((0,0,1), math.pi),((1,0,1),math.pi/2),((1,0,1),3.0), ((1,1,0), math.pi), ((0,1,1), math.pi), ((1,2,3), math.pi)]:
    for ph in [0.0, math.pi/2, 0.3]:
        g = ControlledGate(0, BlochSphereRotation(1, ax, an, ph))
        try:
            r = CNOTDecomposer().decompose(g); check_gate_replacement(g, r)
        except Exception as e: print("C-gate fail", ax, an, ph, str(e)[-40:])
# (e) boundary angle
t("boundary", lambda: ZYZDecomposer().decompose(BlochSphereRotation(0,(0,1,0), -math.pi+ATOL)))
t("boundary2", lambda: ZYZDecomposer().decompose(Ry(0, Float(-math.pi+ATOL))))
print(normalize_angle(-math.pi+ATOL), -math.pi+ATOL)
# (d) libqasm sizes
t("sizes", lambda: Circuit.from_string("version 3.0\nqubit[3] q\nCNOT q[0:1], q[2]\n").ir.statements)
t("sizes2", lambda: Circuit.from_string("version 3.0\nqubit[3] q\nbit[3] b\nb[0:1] = measure q\n").ir.statements)
t("sizes3", lambda: Circuit.from_string("version 3.0\nqubit[3] q\nbit[3] b\nb = measure q[0]\n").ir.statements)
