import math, traceback
import numpy as np
from opensquirrel import CircuitBuilder, Circuit
from opensquirrel.ir import *
from opensquirrel.decomposer import *
from opensquirrel.default_gates import *
from opensquirrel.default_measures import *
from opensquirrel.mapper import HardcodedMapper
from opensquirrel.mapper.mapping import Mapping
from opensquirrel.exporter.export_format import ExportFormat
from opensquirrel.utils import get_matrix

def t(name, f):
    try:
        r = f()
        print(name, "->", repr(r)[:600])
    except Exception as e:
        print(name, "RAISED", type(e).__name__, str(e)[:300])

# C03
def c03():
    b = CircuitBuilder(3,3)
    b.H(0).CNOT(0,1).Rz(2, Float(0.5)).measure(0, Bit(0)).reset(1)
    c = b.to_circuit()
    c.map(HardcodedMapper(3, Mapping([2,0,1])))
    return (str(c), c.ir.statements, c.export(ExportFormat.CQASM_V1))
t("C03 map then write", c03)
t("C03 mapping shorter", lambda: (lambda c: (c.map(HardcodedMapper(2, Mapping([1,0]))), str(c), c.ir.statements))(CircuitBuilder(3).H(0).CNOT(1,2).to_circuit()))
t("C03 mapping nonperm", lambda: Mapping([0,0,1]))
t("C03 mapping nonperm2", lambda: Mapping([1,2,3]))
# C04
def c04(v):
    def f():
        c = CircuitBuilder(1).Rx(0, Float(v)).to_circuit()
        s = str(c)
        c2 = Circuit.from_string(s)
        return s, c2.ir.statements
    return f
t("C04 1e-5", c04(1e-5))
t("C04 1e9", c04(123456789.0))
t("C04 -0.0", c04(-0.0))
t("C04 2.0", c04(2.0))
t("C04 1e-12", c04(1e-12))
# C07
for th in [math.pi+0.5, -math.pi-0.5, 2*math.pi, 3.5, math.pi]:
    g = CR(0,1,Float(th))
    m = get_matrix(g, 2)
    exp = np.diag([1,1,1,np.exp(1j*th)])
    # control=0, target=1: apply when bit0=1 and target bit1 = 1 -> index 3
    print("C07 CR", th, np.allclose(m, exp), np.round(m.diagonal(),4))
for k in [-2,-1,0,1,2,3]:
    g = CRk(0,1,k)
    m = get_matrix(g, 2)
    exp = np.diag([1,1,1,np.exp(2j*math.pi/2**k)])
    print("C07 CRk", k, np.allclose(m, exp), np.round(m.diagonal(),4))
# C13
t("C13 neg idx", lambda: str(CircuitBuilder(2).H(-1).to_circuit()))
t("C13 neg bit", lambda: str(CircuitBuilder(2,2).measure(0, Bit(-1)).to_circuit()))
t("C13 eq operands", lambda: str(CircuitBuilder(2).CNOT(1,1).to_circuit()))
t("C13 missing arg", lambda: str(CircuitBuilder(2).CNOT(1).to_circuit()))
t("C13 extra arg", lambda: str(CircuitBuilder(2).H(1, 0).to_circuit()))
# C15
t("C15 zero axis", lambda: BlochSphereRotation(0, (0,0,0), 1.0))
t("C15 nan axis", lambda: BlochSphereRotation(0, (float('nan'),0,0), 1.0))
t("C15 1e-300 axis", lambda: BlochSphereRotation(0, (1e-300,0,0), 1.0))
t("C15 1e300 axis", lambda: BlochSphereRotation(0, (1e300,1e300,0), 1.0))
t("C15 angle nan", lambda: BlochSphereRotation(0, (1,0,0), float('nan')))
for a in [math.pi, -math.pi, 3*math.pi, -3*math.pi, 2*math.pi, -math.pi+1e-8, math.pi+1e-8, -math.pi+5e-8, -math.pi+2e-7]:
    print("C15 norm", a, normalize_angle(a) if 'normalize_angle' in globals() else __import__('opensquirrel.common').common.normalize_angle(a))
