import random, struct, math, sys
random.seed(1)
def bits(x): return struct.unpack('<Q', struct.pack('<d', x))[0]
def fb(b): return struct.unpack('<d', struct.pack('<Q', b))[0]
M=(1<<64)-1
xs=[]
for i in range(20000):
    r=random.random()
    if i%4==0: x=random.uniform(-1,1)
    elif i%4==1: x=random.uniform(-10,10)
    elif i%4==2: x=random.choice([math.pi,math.pi/2,math.pi/4,1.0,0.5,0.0,-0.0])*random.choice([1,-1])+random.choice([0,1e-9,1e-7,-1e-7,1e-12])
    else: x=random.uniform(-1,1)*10**random.randint(-12,3)
    xs.append(x)
with open('in.txt','w') as f:
    for x in xs: f.write(f"{bits(x)}\n")
def nb(v):
    return bits(v)
with open('py.txt','w') as f:
    for x in xs:
        b=bits(x); yb=(b*6364136223846793005+1442695040888963407)&M; y=fb(yb)
        def s(fn):
            try: return nb(fn())
            except Exception: return 'E'
        f.write(' '.join(str(v) for v in [s(lambda: math.sin(x)), s(lambda: math.cos(x)), s(lambda: math.tan(x)), s(lambda: math.acos(x)), s(lambda: math.atan2(x,y)), s(lambda: math.sqrt(x)), s(lambda: float(math.floor(x))), s(lambda: math.log10(x)), s(lambda: math.exp(x))])+"\n")
