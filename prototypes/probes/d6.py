import cqasm.v3x as cqasm
a = cqasm.Analyzer("3.0", False)
src = """version 3.0
qubit[3] q
bit[2] b
qubit r
Rx(-pi/3) q[0:1]
CNOT q[0,1], q[2,0]
bit c
b = measure q[0:1]
c = measure r
CRk(2) q[0], r
reset
H r
"""
ast = a.analyze_string(src)
print(type(ast))
print([ (v.name, type(v.typ).__name__, v.typ.size) for v in ast.variables])
for st in ast.block.statements:
    print(st.name, [(type(o).__name__, getattr(getattr(o,'variable',None),'name',None), [i.value for i in o.indices] if hasattr(o,'indices') else getattr(o,'value',None)) for o in st.operands])
for bad in ["version 3.0\nqubit[2] q\nH q[2]\n", "version 3.0\nqubit[2] q\nCNOT q[0], q[0]\n", "version 3.0\nqubit[2] q\nRx(1e-05) q[0]\n","version 3.0\nqubit[2] q\nRx(1.0e-05) q[0]\n","version 3.0\nqubit[2] q\nRx(-1.5) q[0]\n","version 3.0\nqubit[2] q\nbit[1] b\nb[1] = measure q[0]\n","version 3.0\nqubit[2] q\nCNOT q[0:1], q[0:1]\n","version 3.0\nqubit[2] q\nCNOT q, q[0]\n"]:
    r = a.analyze_string(bad)
    print(repr(bad[22:]), "->", r if isinstance(r,list) else "OK")
