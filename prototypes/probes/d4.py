import math, itertools
import numpy as np
from opensquirrel.ir import *
from opensquirrel.decomposer import *
from opensquirrel.decomposer.general_decomposer import check_gate_replacement
from opensquirrel.default_gates import *
decs = [XYXDecomposer, XZXDecomposer, YXYDecomposer, YZYDecomposer, ZXZDecomposer, ZYZDecomposer, McKayDecomposer]
fails = {}
angles = [0, math.pi/4, -math.pi/4, math.pi/2, -math.pi/2, math.pi, -math.pi, 1.0, -1.0, 3.0, -3.0, 1e-9, math.pi-1e-9, math.pi-1e-5,3.1415927, 0.78539816, 1.5707963]
for D in decs:
    for sx,sy,sz in itertools.product([-1,0,1],repeat=3):
        if (sx,sy,sz)==(0,0,0): continue
        for mag in [(1,1,1),(1,2,3),(3,1,2)]:
            ax=(sx*mag[0],sy*mag[1],sz*mag[2])
            for a in angles:
                g = BlochSphereRotation(0, ax, a)
                try:
                    r = D().decompose(g)
                    check_gate_replacement(g, r)
                except Exception as e:
                    fails.setdefault(D.__name__, []).append(((sx,sy,sz), mag, a, type(e).__name__+":"+str(e)[-40:]))
for k,v in fails.items():
    print(k, len(v))
    seen=set()
    for f in v:
        key=(f[0], round(f[2],3), f[3])
        if key in seen: continue
        seen.add(key)
    for s in sorted(seen)[:60]: print("   ", s)
