import math, traceback
from opensquirrel import CircuitBuilder, Circuit
from opensquirrel.ir import *
from opensquirrel.decomposer import *
from opensquirrel.default_gates import *
from opensquirrel.mapper import HardcodedMapper
from opensquirrel.mapper.mapping import Mapping
from opensquirrel.exporter.export_format import ExportFormat

def t(name, f):
    try:
        r = f()
        print(name, "->", repr(r)[:300])
    except Exception as e:
        print(name, "RAISED", type(e).__name__, str(e)[:200])

def dec(gate_f, D):
    def f():
        b = CircuitBuilder(2)
        c = b.to_circuit()
        c.ir.add_gate(gate_f())
        c.decompose(D())
        return c
    return f

for D in [XYXDecomposer, XZXDecomposer, YXYDecomposer, YZYDecomposer, ZXZDecomposer, ZYZDecomposer, McKayDecomposer, CNOTDecomposer]:
    t(f"C01 identity {D.__name__}", dec(lambda: I(0), D))
    t(f"C01 negaxis {D.__name__}", dec(lambda: BlochSphereRotation(0, (-1,-1,1), 1.0), D))
    t(f"C01 pi8 {D.__name__}", dec(lambda: Rx(0, Float(3.1415927)), D))
    t(f"C01 CH {D.__name__}", dec(lambda: ControlledGate(0, H(1)), D))
