import math, traceback
import numpy as np
from opensquirrel import CircuitBuilder, Circuit
from opensquirrel.ir import *
from opensquirrel.decomposer import *
from opensquirrel.default_gates import *
from opensquirrel.default_measures import *
from opensquirrel.mapper import HardcodedMapper
from opensquirrel.mapper.mapping import Mapping
from opensquirrel.exporter.export_format import ExportFormat
from opensquirrel.utils import get_matrix
from opensquirrel.merger.general_merger import compose_bloch_sphere_rotations

def t(name, f):
    try:
        r = f()
        print(name, "->", repr(r)[:800])
    except Exception as e:
        print(name, "RAISED", type(e).__name__, str(e)[:300])

# C11: merged Rz(-t)
def c11():
    c = CircuitBuilder(1).Rz(0, Float(-0.5)).to_circuit()
    c.merge_single_qubit_gates()
    g = c.ir.statements[0]
    print("  merged:", g, g.name, g.arguments, g.axis, g.angle)
    sched, bm = c.export(ExportFormat.QUANTIFY_SCHEDULER)
    return [ (s['name'] if 'name' in s else s) for s in sched.schedulables.values()], [op for op in sched.operations.values()]
t("C11 merged rz", c11)
try:
    import quantify_scheduler
    print("quantify_scheduler present", quantify_scheduler.__version__)
except Exception as e:
    print("no quantify_scheduler", e)

# C20
@named_gate
def swap(q1: QubitLike, q2: QubitLike) -> MatrixGate:
    return MatrixGate([[1,0,0,0],[0,0,1,0],[0,1,0,0],[0,0,0,1]], [q1,q2])
def c20():
    b = CircuitBuilder(3, gate_set=[*default_gate_set, swap])
    b.swap(0,2)
    c = b.to_circuit()
    return str(c), c.export(ExportFormat.CQASM_V1)
t("C20 swap", c20)
# C14: merge a single gate keep name
def c14():
    c = CircuitBuilder(2).Rz(0, Float(-0.5)).H(1).CNOT(0,1).Rx(1, Float(0.3)).to_circuit()
    c.merge_single_qubit_gates()
    return str(c)
t("C14", c14)
# C02: merge with CR? 
# C16 eq
print("C16", BlochSphereRotation(0,(1,0,0),math.pi) == BlochSphereRotation(0,(-1,0,0),math.pi))
print("C16b", BlochSphereRotation(0,(1,0,0),math.pi, 0) == BlochSphereRotation(0,(1,0,0),math.pi, 1))
print("C16c", ControlledGate(0, BlochSphereRotation(1,(0,0,1),math.pi, 0)) == ControlledGate(0, BlochSphereRotation(1,(0,0,1),math.pi, math.pi/2)))
# C18
from opensquirrel.mapper.utils import make_interaction_graph
c = CircuitBuilder(4).CNOT(0,1).CZ(3,2).H(0).to_circuit()
g = make_interaction_graph(c.ir)
print("C18", list(g.nodes), list(g.edges))
