import math, random, itertools, copy
import numpy as np
from opensquirrel import CircuitBuilder, Circuit
from opensquirrel.ir import *
from opensquirrel.default_gates import *
from opensquirrel.default_measures import measure
from opensquirrel.default_resets import reset
from opensquirrel.utils import get_matrix
from opensquirrel.circuit_matrix_calculator import get_circuit_matrix

# independent reference semantics
SX=np.array([[0,1],[1,0]],complex); SY=np.array([[0,-1j],[1j,0]]); SZ=np.array([[1,0],[0,-1]],complex); I2=np.eye(2,dtype=complex)
def u1(ax,an,ph):
    ax=np.array(ax,float); 
    return np.exp(1j*ph)*(math.cos(an/2)*I2-1j*math.sin(an/2)*(ax[0]*SX+ax[1]*SY+ax[2]*SZ))
def embed(n, ops, m):
    # m: 2^k x 2^k, first operand most significant; qubit 0 = LSB
    k=len(ops); N=1<<n; M=np.zeros((N,N),complex)
    for c in range(N):
        sc=0
        for j,q in enumerate(ops): sc|=((c>>q)&1)<<(k-1-j)
        for sr in range(1<<k):
            r=c
            for j,q in enumerate(ops):
                b=(sr>>(k-1-j))&1
                r=(r&~(1<<q))|(b<<q)
            M[r,c]=m[sr,sc]
    return M
def ref_gate(g,n):
    if isinstance(g,BlochSphereRotation): return embed(n,[g.qubit.index],u1(g.axis.value,g.angle,g.phase))
    if isinstance(g,MatrixGate): return embed(n,[q.index for q in g.operands],g.matrix)
    if isinstance(g,ControlledGate):
        inner=ref_gate(g.target_gate,n); c=g.control_qubit.index
        P1=embed(n,[c],np.array([[0,0],[0,1]],complex)); P0=embed(n,[c],np.array([[1,0],[0,0]],complex))
        return P0+P1@inner
def ref_circ(stmts,n,outcomes):
    M=np.eye(1<<n,dtype=complex); oi=0
    for s in stmts:
        if isinstance(s,Gate): M=ref_gate(s,n)@M
        elif isinstance(s,Measure):
            b=outcomes[oi]; oi+=1
            P=np.array([[1-b,0],[0,b]],complex); M=embed(n,[s.qubit.index],P)@M
        elif isinstance(s,Reset):
            b=outcomes[oi]; oi+=1
            K=np.array([[1-b,b],[0,0]],complex); M=embed(n,[s.qubit.index],K)@M
    return M
def equiv_all(s1,s2,n,nout):
    # one global phase across all outcomes
    phase=None
    for oc in itertools.product([0,1],repeat=nout):
        A=ref_circ(s1,n,oc); B=ref_circ(s2,n,oc)
        if phase is None:
            idx=np.unravel_index(np.argmax(abs(A)),A.shape)
            if abs(A[idx])>1e-6:
                if abs(B[idx])<1e-9: return False
                phase=A[idx]/B[idx]
        if phase is None:
            if not np.allclose(A,B,atol=1e-6): return False
        elif not np.allclose(A,phase*B,atol=1e-6): return False
    return True

rng=random.Random(5)
def rand_axis():
    m=rng.choice([0,1,2])
    if m==0: return rng.choice([(1,0,0),(0,1,0),(0,0,1),(-1,0,0),(0,-1,0),(0,0,-1),(1,0,1),(1,1,0)])
    return tuple(rng.uniform(-1,1) for _ in range(3))
def rand_angle():
    return rng.choice([0,math.pi,-math.pi,math.pi/2,-math.pi/2,math.pi/4,rng.uniform(-4,4),rng.uniform(-4,4),1e-8,math.pi-1e-8])
def rand_gate1(q):
    m=rng.randrange(4)
    if m==0: return rng.choice([I,H,X,X90,mX90,Y,Y90,mY90,Z,S,Sdag,T,Tdag])(q)
    if m==1: return rng.choice([Rx,Ry,Rz])(q,Float(rand_angle()))
    return BlochSphereRotation(q,rand_axis(),rand_angle(),rng.choice([0,0,rng.uniform(-3,3)]))
# 1. matrix expander vs reference
bad=0
for it in range(400):
    n=rng.randint(1,4)
    qs=list(range(n)); rng.shuffle(qs)
    kind=rng.randrange(4)
    if kind==0 or n==1: g=rand_gate1(qs[0])
    elif kind==1: g=ControlledGate(qs[0],rand_gate1(qs[1]))
    elif kind==2 and n>=3: g=ControlledGate(qs[0],ControlledGate(qs[1],rand_gate1(qs[2])))
    else:
        k=rng.randint(2,min(n,3)); 
        A=np.linalg.qr(np.random.randn(1<<k,1<<k)+1j*np.random.randn(1<<k,1<<k))[0]
        g=MatrixGate(A,qs[:k])
    if not np.allclose(get_matrix(g,n),ref_gate(g,n),atol=1e-9): bad+=1; print("EXPANDER MISMATCH",g,n)
print("expander mismatches",bad)
# 2. merge
bad=0
for it in range(600):
    n=rng.randint(1,3); L=rng.randint(1,10)
    b=CircuitBuilder(n,n); c=b.to_circuit(); nout=0
    for _ in range(L):
        m=rng.randrange(8)
        q=rng.randrange(n)
        if m<5: c.ir.add_gate(rand_gate1(q))
        elif m==5 and n>=2:
            q2=rng.choice([x for x in range(n) if x!=q]); c.ir.add_gate(rng.choice([CNOT,CZ])(q,q2))
        elif m==6 and nout<3: c.ir.add_measure(measure(q,Bit(rng.randrange(n)))); nout+=1
        elif m==7 and nout<3: c.ir.add_reset(reset(q)); nout+=1
    orig=copy.deepcopy(c.ir.statements)
    try:
        c.merge_single_qubit_gates()
    except Exception as e:
        bad+=1; print("MERGE RAISED",e,orig); continue
    if not equiv_all(orig,c.ir.statements,n,nout):
        bad+=1; print("MERGE NOT EQUIV",orig,"=>",c.ir.statements)
        if bad>5: break
print("merge bad",bad)
