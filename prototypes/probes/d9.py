import math, random, time, itertools
import numpy as np
from opensquirrel import CircuitBuilder, Circuit
from opensquirrel.ir import *
from opensquirrel.decomposer import *
from opensquirrel.decomposer.general_decomposer import check_gate_replacement
from opensquirrel.default_gates import *
from opensquirrel.mapper import HardcodedMapper, IdentityMapper
from opensquirrel.mapper.mapping import Mapping
from opensquirrel.mapper.utils import make_interaction_graph
from opensquirrel.exporter.export_format import ExportFormat
def t(name, f):
    try:
        r = f(); print(name, "->", repr(r)[:400])
    except Exception as e:
        print(name, "RAISED", type(e).__name__, str(e)[:200])
# C06 boundary
for eps in [1e-12,1e-9,5e-9,2e-8,5e-8,1e-7,1e-6,1e-4]:
    try:
        check_gate_replacement(Rx(0,Float(1.0)), [Rx(0,Float(1.0+eps))]); r="accept"
    except ValueError: r="reject"
    print("C06 eps",eps,r)
t("C06 empty for identity", lambda: check_gate_replacement(I(0), []))
t("C06 relphase", lambda: check_gate_replacement(CZ(0,1), [CZ(0,1), Rz(0,Float(1e-3))]))
# C06 failure leaves circuit intact?
def c06():
    c=CircuitBuilder(2).H(0).H(1).H(0).to_circuit()
    k=[0]
    def f(q):
        k[0]+=1
        return [Y90(q),X(q)] if k[0]<3 else [X(q)]
    try: c.replace(H,f)
    except ValueError as e: print("  raised",e)
    return str(c)
t("C06 atomic", c06)
# C12 anonymous
t("C12 anon", lambda: (lambda c:(c.ir.add_gate(BlochSphereRotation(0,(1,1,0),1.0)), c.export(ExportFormat.CQASM_V1)))(CircuitBuilder(1).H(0).to_circuit()))
t("C12 all", lambda: CircuitBuilder(2,2).H(0).Rx(1,Float(0.5)).CR(0,1,Float(1.5)).CRk(1,0,3).measure(0,Bit(1)).reset(1).comment("hi").to_circuit().export(ExportFormat.CQASM_V1))
# C16
cz1=CZ(0,1); cz2=CZ(1,0); mcz=MatrixGate(np.diag([1,1,1,-1]),[0,1]); mcz2=MatrixGate(np.diag([1,1,1,-1]),[5,1])
print("C16 cz sym", cz1==cz2, cz1==mcz, mcz==cz1, cz1==mcz2, H(0)==H(1), I(0)==I(1), I(0)==BlochSphereRotation(0,(0,0,1),0))
print("C16 ctrl phase", ControlledGate(0,Z(1))==ControlledGate(0,BlochSphereRotation(1,(0,0,1),math.pi)))
print("C16 X -x", X(0)==BlochSphereRotation(0,(-1,0,0),math.pi,-math.pi/2), X(0)==BlochSphereRotation(0,(-1,0,0),-math.pi,math.pi/2))
# C18
t("C18 3q", lambda: make_interaction_graph((lambda c:(c.ir.add_gate(ControlledGate(0,CNOT(1,2))),c)[1])(CircuitBuilder(3).to_circuit()).ir))
g=make_interaction_graph((lambda c:(c.ir.add_gate(MatrixGate(np.eye(4),[2,0])),c)[1])(CircuitBuilder(3).CNOT(0,1).to_circuit()).ir)
print("C18 edges", list(g.edges))
# C19
for n in [64, 1000, 100000]:
    b=CircuitBuilder(n,n); b.H(0).CNOT(0,n-1).Rz(n-1,Float(0.3)).Ry(n//2,Float(1.0)).CR(n-1,0,Float(0.5)).measure(n-1,Bit(n-1))
    c=b.to_circuit(); t0=time.time()
    c.decompose(CNOTDecomposer()) if False else None
    c.merge_single_qubit_gates(); t1=time.time()
    c.decompose(McKayDecomposer()); t2=time.time()
    c.map(IdentityMapper(n)); t3=time.time()
    s=str(c); t4=time.time()
    print("C19 n",n,"merge %.2f mckay %.2f map %.2f write %.2f"%(t1-t0,t2-t1,t3-t2,t4-t3), len(c.ir.statements))
# C10
from collections import Counter
rng=random.Random(1); cnt=Counter()
for _ in range(300):
    g=BlochSphereRotation(0,[rng.choice([0,1,1e-9,rng.uniform(0,1)]) for _ in range(3)] if rng.random()<0.9 else (0,0,1),rng.choice([0,1e-9,math.pi,math.pi/2,rng.uniform(-3,3)]),rng.choice([0,0.4]))
    if any(np.isnan(g.axis.value)): continue
    try:
        out=McKayDecomposer().decompose(g)
        cnt[tuple(o.name if not o.is_anonymous else "ANON" for o in out)]+=1
        if any(o.is_identity() for o in out): print("identity leaked", g, out)
    except Exception as e: cnt["ERR "+str(e)[:30]]+=1
print(cnt)
