import math, itertools
import numpy as np
from opensquirrel.ir import *
from opensquirrel.decomposer import *
from opensquirrel.decomposer.general_decomposer import check_gate_replacement
from opensquirrel.default_gates import *
# which octants fail for generic angle 1.0, magnitudes (1,2,3), per decomposer
decs = [XYXDecomposer, XZXDecomposer, YXYDecomposer, YZYDecomposer, ZXZDecomposer, ZYZDecomposer, McKayDecomposer]
for D in decs:
    bad=[]
    for sx,sy,sz in itertools.product([-1,1],repeat=3):
        for a in [1.0,-1.0, 2.5, -2.5]:
            g = BlochSphereRotation(0, (sx*1,sy*2,sz*3), a)
            try:
                r = D().decompose(g); check_gate_replacement(g, r)
            except Exception as e:
                bad.append(((sx,sy,sz),a))
    print(D.__name__, sorted(set(b[0] for b in bad)))
# CNOT decomposer
bad=[]
tot=0
for sx,sy,sz in itertools.product([-1,0,1],repeat=3):
    if (sx,sy,sz)==(0,0,0): continue
    for a in [0, 1.0,-1.0, 2.5, -2.5, math.pi, math.pi/2, -math.pi/2]:
        for ph in [0, 0.3, math.pi/2, -1.0]:
            g = ControlledGate(0, BlochSphereRotation(1, (sx*1,sy*2,sz*3), a, ph))
            tot+=1
            try:
                r = CNOTDecomposer().decompose(g); check_gate_replacement(g, r)
            except Exception as e:
                bad.append(((sx,sy,sz),a,ph,str(e)[-30:]))
print("CNOT", len(bad), "of", tot)
for b in bad[:40]: print("  ", b)
