import math
import numpy as np
from opensquirrel.ir import *
from opensquirrel.decomposer import *
from opensquirrel.decomposer.general_decomposer import check_gate_replacement
from opensquirrel.default_gates import *
from opensquirrel.merger import general_merger
from opensquirrel.common import ATOL
for (ax,an,ph) in [((1,0,1),math.pi,math.pi/2), ((1,2,3),math.pi,0.0), ((1,0,0),math.pi,math.pi/2), ((1,2,3),1.0,0.0)]:
    tg = BlochSphereRotation(1, ax, an, ph)
    g = ControlledGate(0, tg)
    cx = general_merger.compose_bloch_sphere_rotations(X(1), tg)
    print("target", tg, "\n  times X:", cx)
    z = ZYZDecomposer()
    try:
        t0,t1,t2 = z.get_decomposition_angles(cx.angle, cx.axis)
        print("  zyz(with x)", t0,t1,t2, "special?", abs((t0-t2)%(2*math.pi))<ATOL)
        check_gate_replacement(cx, [Rz(1,Float(t0)),Ry(1,Float(t1)),Rz(1,Float(t2))]); print("  zyz of cx OK")
    except Exception as e: print("  zyz of cx FAIL", e)
    try:
        t0,t1,t2 = z.get_decomposition_angles(tg.angle, tg.axis)
        print("  zyz(target)", t0,t1,t2)
        check_gate_replacement(tg, [Rz(1,Float(t0)),Ry(1,Float(t1)),Rz(1,Float(t2))]); print("  zyz of target OK")
    except Exception as e: print("  zyz of target FAIL", e)
    try:
        r = CNOTDecomposer().decompose(g); print("  out", [ (x.name, x.arguments) for x in r]); check_gate_replacement(g, r); print("  CNOT dec OK")
    except Exception as e: print("  CNOT dec FAIL", str(e)[-50:])
