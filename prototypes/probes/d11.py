import math, sys, hashlib, copy
from opensquirrel import CircuitBuilder, Circuit
from opensquirrel.ir import *
from opensquirrel.decomposer import *
from opensquirrel.default_gates import *
import opensquirrel.default_gates as dg
src = """version 3.0
qubit[3] q
bit[3] b
H q[0]
CNOT q[0], q[1]
Rx(0.3) q[2]
CR(1.2) q[2], q[0]
Ry(0.7) q[1]
CZ q[1], q[2]
b[0] = measure q[0]
Rz(0.25) q[0]
"""
def run():
    c = Circuit.from_string(src)
    c.decompose(CNOTDecomposer()); c.merge_single_qubit_gates(); c.decompose(McKayDecomposer())
    return str(c)
before = (list(dg.default_gate_set), dict(dg.default_gate_aliases))
a = run()
# interleave other work
c2 = CircuitBuilder(2).H(0).CNOT(0,1).to_circuit(); c2.replace(CNOT, lambda c,t: [H(t), CZ(c,t), H(t)]); c2.merge_single_qubit_gates()
b = run()
after = (list(dg.default_gate_set), dict(dg.default_gate_aliases))
print(hashlib.sha1(a.encode()).hexdigest()[:12], a==b, before==after)
